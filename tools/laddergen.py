"""T1+ (C18): translate the allocation / clean-up ladders of /repo into goto-programs for
Model.Ledger (lean/ArgoVerif/Gen/Ladders.lean).

For every routine in ROUTINES the clang-14 JSON AST of the *current* source is walked and the
body is turned into a flat instruction list: calls to classified callees (acquire / release /
fallible / error-returning / pure), assignments to the integer variables that steer the ladder
(abt_errno, init_stage, loop counters), pointer copies, stores to output handles, conditional
branches (conditions over tracked variables stay exact, everything else becomes a named opaque
atom), goto / label / return, `for` / `while` / `do` / `switch`.  Anything else inside a listed
routine is a hard error: the model would no longer cover the code.

The hand-written part is CALLEES (what each callee does to the ledger) and ROUTINES (which
parameters hold pre-existing resources).  Both are cross-checked dynamically by checks/c18.py."""
import hashlib, json, os, re, sys
from concurrent.futures import ThreadPoolExecutor
sys.path.insert(0, os.path.dirname(os.path.dirname(os.path.abspath(__file__))))
from vlib import common as C


class Unsupported(Exception):
    pass


# ---------------------------------------------------------------------------------------------
# resource kinds (index = Lean `Kind`)
KINDS = ["none", "mem", "xstream", "sched", "pool", "ythread", "task", "ktable", "lazy_ktable", "migdata",
         "localpools", "globalpools", "rank", "oscontext", "osmutex", "oscond", "osthread", "poolref",
         "userdata", "unit", "unitmap", "primary_xstream", "primary_ythread", "pools_of_sched", "syncobj"]
K = {n: i for i, n in enumerate(KINDS)}

# ---------------------------------------------------------------------------------------------
# callee classification.  Templates: {i} = canonical text of argument i, {f} = base of an indirect call.
#   ("pure",)                                     no ledger effect (result, if used, is opaque)
#   ("acq", kind, dst)                            fallible; returns error code; stores into dst
#   ("acqp", kind)                                fallible; returns the pointer (NULL on failure)
#   ("acqi", kind, dst)                           cannot fail (reference count, rank slot)
#   ("acqenv", kind, dst)                         returns ABT_TRUE and acquires, or ABT_FALSE (not an allocation failure)
#   ("fallible",)                                 may fail for lack of memory; allocations owned by an existing object
#   ("err",)                                      returns an error code that does not stem from an allocation (opaque 0/1)
#   ("rel", src, lax)                             releases the resource held by src
#   ("seq", [...])                                several of the above in order
#   ("store", path, value)                        writes a tracked field of a pre-existing object
#   ("ktset", dst, lazy)                          ABTI_ktable_set[_unsafe]: create the table if dst is NULL, then add an element
#   ("fstore", path, value)                       fallible; on success writes a tracked field of a pre-existing object
#                                                 (the callee's own theorems say: untouched when it fails)
PURE = ("pure",)
CALLEES = {
    # --- primitives -------------------------------------------------------------------------
    "ABTU_malloc": ("acq", "mem", "*{1}"),
    "ABTU_calloc": ("acq", "mem", "*{2}"),
    "ABTU_memalign": ("acq", "mem", "*{2}"),
    "ABTU_free": ("rel", "{0}", True),
    "malloc": ("acqp", "mem"),
    "free": ("rel", "{0}", True),
    "pthread_mutex_init": ("acq", "osmutex", "*{0}"),
    "pthread_cond_init": ("acq", "oscond", "*{0}"),
    "pthread_create": ("acq", "osthread", "*{0}"),
    "pthread_mutex_destroy": ("rel", "*{0}", False),
    "pthread_cond_destroy": ("rel", "*{0}", False),
    "pthread_barrier_init": ("acq", "syncobj", "*{0}"),
    "ABTD_xstream_barrier_init": ("acq", "syncobj", "*{1}"),
    # --- composite acquisitions (summaries; the routines marked * below are themselves translated) ---
    "ABTI_mem_init": ("acq", "globalpools", "mempools:{0}"),
    "ABTI_mem_finalize": ("rel", "mempools:{0}", False),
    "ABTI_mem_init_local": ("acq", "localpools", "mempools:{1}"),            # *
    "ABTI_mem_finalize_local": ("rel", "mempools:{0}", False),
    "ABTI_mem_pool_init_local_pool": ("acq", "localpools", "*{0}"),
    "ABTI_mem_pool_destroy_local_pool": ("rel", "*{0}", False),
    "ABTI_mem_pool_destroy_global_pool": PURE,
    "ABTI_mem_pool_init_global_pool": PURE,
    "ABTI_ythread_create_root": ("acq", "ythread", "*{3}"),
    "ABTI_ythread_create_primary": ("acq", "primary_ythread", "*{3}"),
    "ABTI_ythread_create_main_sched": ("acq", "ythread", "{3}->p_ythread"),
    "ABTI_ythread_create_sched": ("acq", "ythread", "{3}->p_ythread"),
    "ABTI_ythread_free_root": ("rel", "{2}", False),
    "ABTI_thread_free": ("rel", "{2}", False),
    "ABTI_pool_create_basic": ("acq", "pool", "*{3}"),
    "ABTI_pool_free": ("seq", [("rel", "{0}", False), ("rel", "ref:{0}", True)]),
    "ABTI_pool_retain": ("acqi", "poolref", "ref:{0}"),
    "ABTI_pool_release": ("rel", "ref:{0}", False),
    "ABTI_sched_create_basic": ("acq", "sched", "*{4}"),                       # *
    "sched_create": ("acq", "sched", "*{5}"),                                  # *
    "ABTI_sched_free": ("rel", "{2}", False),
    "xstream_create": ("acq", "xstream", "*{5}"),                              # *
    "ABTI_xstream_create_primary": ("acq", "primary_xstream", "*{1}"),         # *
    "ABTI_xstream_free": ("rel", "{2}", False),
    "ABTD_xstream_context_create": ("acq", "oscontext", "ctx:{2}"),            # *
    "xstream_set_new_rank": ("acqenv", "rank", "rank:{1}"),
    "xstream_return_rank": ("rel", "rank:{1}", False),
    "xstream_init_main_sched": ("store", "{1}->used", 1),
    "pool_create": ("acq", "pool", "*{8}"),                                    # *
    "ythread_create": ("acq", "ythread", "*{9}"),                              # *
    "task_create": ("acq", "task", "*{7}"),                                    # *
    "ABTI_mem_alloc_ythread_default": ("acq", "ythread", "*{2}"),
    "ABTI_mem_alloc_ythread_mempool_desc_stack": ("acq", "ythread", "*{3}"),
    "ABTI_mem_alloc_ythread_malloc_desc_stack": ("acq", "ythread", "*{2}"),
    "ABTI_mem_alloc_ythread_mempool_desc": ("acq", "ythread", "*{4}"),
    "ABTI_mem_alloc_nythread": ("acq", "task", "*{1}"),
    "ABTI_mem_free_thread": ("rel", "{2}", False),
    "ABTI_ktable_set_unsafe": ("ktset", "*{2}", False, "{4}", "{3}"),
    "ABTI_ktable_set": ("ktset", "*{2}", True, "{4}", "{3}"),
    "ABTI_ktable_free": ("rel", "{2}", False),
    "ABTI_thread_init_pool": ("fallible",),        # unit creation + unit map; undone by the callee itself on failure
    "ABTI_thread_set_associated_pool": ("fallible",),
    "ABTI_thread_get_mig_data": ("fallible",),                                 # *
    "xstream_update_main_sched": ("fstore", "{3}->used", "ABTI_SCHED_MAIN"),   # *
    "ABTI_sched_discard_and_free": ("rel", "{2}", True),     # the pending replacement scheduler (not tracked: lax)
    "ABTI_unit_map_thread": ("acq", "unitmap", "map:{1}"),
    "ABTI_unit_unmap_thread": ("rel", "map:{1}", False),
    "ABTI_ktable_create": ("acq", "ktable", "*{2}"),
    "ABTI_ktable_alloc_elem": ("fallible",),
    "ABTI_ktable_set_impl": ("fallible",),
    "timer_alloc": ("acq", "mem", "*{0}"),
    "ABTU_hashtable_create": ("acq", "mem", "*{2}"),
    "ABTI_mem_alloc_desc": ("acq", "mem", "*{1}"),
    "ABTI_mem_free_desc": ("rel", "{2}", False),
    "ABTD_affinity_finalize": PURE,   # releases what ABTD_env_init set up before the ladder starts
    "ABTD_env_init": PURE,
    # --- error-returning, not allocating -------------------------------------------------------
    "ABTI_sched_config_read": ("err",),
    "ABTI_pool_config_read": ("err",),
    "ABTI_pool_get_fifo_def": ("err",),
    "ABTI_pool_get_fifo_wait_def": ("err",),
    "ABTI_pool_get_randws_def": ("err",),
    "ABTI_sched_get_migration_pool": ("err",),
}
# indirect calls through a function pointer member
INDIRECT = {
    "init": ("acq", "userdata", "data:{f}"),          # p_sched->init(sched, config)
    "p_init": ("acq", "userdata", "data:{f}"),        # p_pool->optional_def.p_init(pool, config)
    "p_create_unit": ("acqp", "unit"),
    "p_free_unit": ("rel", "{1}", False),
    "f_migration_cb": PURE,
}
# callees that only compute / synchronise / log (listed by prefix or exact name)
PURE_PREFIX = ("ABTD_atomic_", "ABTD_spinlock_", "ABTI_event_", "ABTI_tool_", "ABTD_ythread_context_", "ABTU_roundup_",
               "ABTU_min_", "ABTU_max_", "__builtin_", "ABTI_waitlist_init", "ABTI_spinlock_", "ABTD_futex_",
               "ABTI_mem_register_stack", "ABTI_mem_unregister_stack", "ABTI_thread_attr_init", "LOG_", "ABTI_log_")
PURE_NAMES = {
    "fprintf", "memcpy", "memset", "__assert_fail", "snprintf", "strlen", "ABTI_mutex_init", "ABTI_cond_init",
    "ABTD_time_get", "ABTI_thread_attr_init_migration", "ABTI_mutex_attr_init",
    "ABTI_global_get_global_or_null", "ABTI_global_get_global", "ABTI_global_set_global", "ABTI_local_get_local",
    "ABTI_local_get_local_uninlined", "ABTI_local_get_xstream_or_null", "ABTI_local_get_xstream", "ABTI_local_set_xstream",
    "ABTI_xstream_get_local", "ABTI_sched_get_ptr", "ABTI_sched_get_handle", "ABTI_pool_get_ptr", "ABTI_pool_get_handle",
    "ABTI_xstream_get_handle", "ABTI_xstream_get_ptr", "ABTI_thread_get_handle", "ABTI_ythread_get_handle",
    "ABTI_thread_get_ptr", "ABTI_sched_config_get_ptr", "ABTI_sched_config_get_handle", "ABTI_pool_config_get_ptr",
    "ABTI_pool_config_get_handle", "ABTI_thread_attr_get_ptr", "ABTI_eventual_get_handle", "ABTI_future_get_handle",
    "ABTI_pool_user_def_get_ptr", "ABTI_pool_user_def_is_new", "pool_create_def_from_old_def", "pool_get_new_id",
    "ABTI_sched_get_basic_def", "ABTI_sched_get_basic_wait_def", "ABTI_sched_get_prio_def", "ABTI_sched_get_randws_def",
    "sched_get_kind", "ABTI_thread_reset_id", "ABTI_sched_reset_id", "ABTI_pool_reset_id", "ABTI_unit_init_hash_table",
    "ABTI_xstream_start_primary", "ABTI_info_print_config", "ABTD_affinity_cpuset_apply_default",
    "ABTI_pool_push", "ABTI_unit_init_builtin", "ABTI_ktable_get", "ABTI_thread_get_ythread", "ABTI_initialized",
    "ABTI_thread_get_ythread_or_null", "ABTI_unit_is_builtin", "ABTI_ktable_is_valid", "ABTI_ktable_get_idx",
    "ABTI_key_get_ptr", "ABTI_thread_unset_request", "ABTI_thread_set_request", "unit_get_hash_index",
    "atomic_relaxed_load_unit_to_thread", "atomic_relaxed_load_unit", "atomic_relaxed_store_unit",
    "atomic_release_store_unit_to_thread", "ABTI_ythread_resume_and_push", "ABTI_ythread_suspend_replace_sched",
}
# wrappers whose value *is* their first argument as far as the ledger is concerned
IDENTITY = {"ABTI_sched_get_ptr", "ABTI_sched_get_handle", "ABTI_pool_get_ptr", "ABTI_pool_get_handle",
            "ABTI_xstream_get_handle", "ABTI_xstream_get_ptr", "ABTI_thread_get_handle", "ABTI_ythread_get_handle",
            "ABTI_thread_get_ptr", "ABTI_eventual_get_handle", "ABTI_future_get_handle", "ABTI_thread_get_ythread",
            "ABTI_mutex_get_handle", "ABTI_cond_get_handle", "ABTI_barrier_get_handle", "ABTI_rwlock_get_handle",
            "ABTI_key_get_handle", "ABTI_timer_get_handle", "ABTI_thread_attr_get_handle", "ABTI_mutex_attr_get_handle",
            "ABTI_xstream_barrier_get_handle", "ABTI_sched_config_get_handle", "ABTI_pool_config_get_handle",
            "ABTI_pool_user_def_get_handle"}
GETTER = re.compile(r"^ABTI_\w+_get_(handle|ptr)$")
NULL_HANDLES = {"ABT_XSTREAM_NULL", "ABT_SCHED_NULL", "ABT_POOL_NULL", "ABT_THREAD_NULL", "ABT_TASK_NULL",
                "ABT_UNIT_NULL", "ABT_KEY_NULL", "ABT_MUTEX_NULL", "ABT_COND_NULL"}

# ---------------------------------------------------------------------------------------------
# routines.  pres: parameters (canonical paths) that hold a pre-existing resource on entry;
# tracked: fields of pre-existing objects with their value on entry; param: loop-bound parameter;
# over: per-routine overrides of CALLEES.
ROUTINES = [
    dict(fn="xstream_create", file="stream.c", pres=["p_sched"], tracked={"p_sched->used": 0}),
    dict(fn="ABT_xstream_create", file="stream.c", nulls=["sched"]),
    dict(fn="ABT_xstream_create", name="ABT_xstream_create_given", file="stream.c", pres=["sched"]),
    dict(fn="ABT_xstream_create_with_rank", file="stream.c", nulls=["sched"]),
    dict(fn="ABT_xstream_create_with_rank", name="ABT_xstream_create_with_rank_given", file="stream.c", pres=["sched"]),
    dict(fn="ABT_xstream_create_basic", file="stream.c", param="num_pools", over={"ABTI_pool_release": PURE}),
    dict(fn="ABTI_xstream_create_primary", file="stream.c"),
    dict(fn="init_library", file="global.c"),
    dict(fn="ABTD_xstream_context_create", file="arch/abtd_stream.c",
         over={"pthread_mutex_init": ("acq", "osmutex", "m:{0}"), "pthread_cond_init": ("acq", "oscond", "c:{0}"),
               "pthread_create": ("acq", "osthread", "t:{0}"), "pthread_mutex_destroy": ("rel", "m:{0}", False),
               "pthread_cond_destroy": ("rel", "c:{0}", False)}),
    dict(fn="ABTI_mem_init_local", file="mem/malloc.c"),
    dict(fn="ABTI_mem_init", file="mem/malloc.c"),
    dict(fn="ythread_create", file="thread.c", nulls=["p_sched"]),
    dict(fn="ythread_create", name="ythread_create_with_sched", file="thread.c", pres=["p_sched"]),
    dict(fn="task_create", file="task.c"),
    dict(fn="ABTI_thread_get_mig_data", file="thread.c", pres=["p_thread"]),
    dict(fn="ABTI_ythread_create_root", file="thread.c"),
    dict(fn="ABTI_ythread_create_main_sched", file="thread.c", pres=["p_sched"]),
    dict(fn="ABTI_ythread_create_sched", file="thread.c", pres=["p_sched"]),
    dict(fn="sched_create", file="sched/sched.c", param="num_pools", prearr=["pools"]),
    dict(fn="ABTI_sched_create_basic", file="sched/sched.c", param="num_pools", prearr=["pools"]),
    dict(fn="pool_create", file="pool/pool.c"),
    dict(fn="ABT_pool_create", file="pool/pool.c"),
    dict(fn="ABTI_pool_create_basic", file="pool/pool.c"),
    dict(fn="ABT_pool_add_sched", file="pool/pool.c", pres=["sched"], tracked={"sched->used": 0}),
    # main-scheduler replacement: `p_sched->used` and the stream's scheduler pointer are visible state that a failed
    # call must not change (or must roll back); the three branches: first installation / another (joined) stream /
    # the caller's own stream
    dict(fn="xstream_update_main_sched", file="stream.c", pres=["p_sched", "p_xstream->p_main_sched"],
         tracked={"p_sched->used": 0}),
    dict(fn="xstream_update_main_sched", name="xstream_update_main_sched_first", file="stream.c", pres=["p_sched"],
         nulls=["p_xstream->p_main_sched"], tracked={"p_sched->used": 0}),
    dict(fn="ABT_xstream_set_main_sched", file="stream.c", nulls=["sched"]),
    dict(fn="ABT_xstream_set_main_sched", name="ABT_xstream_set_main_sched_given", file="stream.c", pres=["sched"],
         tracked={"p_sched->used": 0}),
    dict(fn="ABT_xstream_set_main_sched_basic", file="stream.c", param="num_pools", over={"ABTI_pool_release": PURE}),
    # re-association of an existing unit (revive, push, migration, set_associated_pool, main-scheduler ULT)
    dict(fn="ABTI_thread_set_associated_pool", file="unit.c", pres=["p_thread->unit", "map:unit"]),
    dict(fn="ABTI_thread_init_pool", file="unit.c", pres=["p_thread"]),
    dict(fn="ABTI_ktable_create", file="thread.c"),
    dict(fn="ABT_eventual_create", file="eventual.c"),
    dict(fn="ABT_future_create", file="futures.c"),
    dict(fn="ABT_mutex_create", file="mutex.c"),
    dict(fn="ABT_cond_create", file="cond.c"),
    dict(fn="ABT_barrier_create", file="barrier.c"),
    dict(fn="ABT_rwlock_create", file="rwlock.c"),
    dict(fn="ABT_key_create", file="key.c"),
    dict(fn="ABT_timer_create", file="timer.c"),
    dict(fn="timer_alloc", file="timer.c"),
    dict(fn="ABT_xstream_barrier_create", file="stream_barrier.c"),
    dict(fn="ABT_thread_attr_create", file="thread_attr.c"),
    dict(fn="ABT_mutex_attr_create", file="mutex_attr.c"),
]

INT_TYPES = re.compile(r"^(const )?(unsigned |signed )?(int|long|short|char|size_t|ssize_t|uint\d+_t|int\d+_t|ABT_bool|"
                       r"unsigned|ABTI_xstream_type|ABT_sched_predef|ABT_pool_kind|ABT_pool_access)( int)?$")
OPAQUE_LOOP_BOUND = 2   # iterations explored for loops whose exit condition is opaque


# ---------------------------------------------------------------------------------------------
# clang AST
def ast_cache_dir():
    base = os.path.join(C.BUILD, "laddergen")
    d = os.path.join(base, C.src_hash())
    if not os.path.isdir(d):
        os.makedirs(d, exist_ok=True)
        # drop caches of other source hashes that have not been used for a day (never one that a
        # concurrent run with another VERIF_REPO may be using)
        import shutil, time
        for x in os.listdir(base):
            px = os.path.join(base, x)
            if os.path.isdir(px) and x != C.src_hash() and time.time() - os.path.getmtime(px) > 86400:
                shutil.rmtree(px, ignore_errors=True)
    return d


def load_objs(txt):
    dec = json.JSONDecoder()
    i, objs = 0, []
    while i < len(txt):
        while i < len(txt) and txt[i].isspace():
            i += 1
        if i >= len(txt):
            break
        o, j = dec.raw_decode(txt, i)
        objs.append(o)
        i = j
    return objs


def prune(n):
    """keep only what the walker reads (the raw dump is ~5 MB per routine)"""
    keep = {}
    for k in ("kind", "name", "opcode", "value", "isArrow", "hasElse", "targetLabelDeclId", "declId", "storageClass",
              "inline", "isPostfix", "castKind"):
        if k in n:
            keep[k] = n[k]
    if "type" in n:
        keep["type"] = n["type"].get("qualType")
    if "referencedDecl" in n:
        keep["ref"] = n["referencedDecl"].get("name")
        keep["refkind"] = n["referencedDecl"].get("kind")
    if "loc" in n and "line" in n["loc"]:
        keep["line"] = n["loc"]["line"]
    if "range" in n and "begin" in n["range"]:
        b = n["range"]["begin"]
        ln = b.get("line") or b.get("expansionLoc", {}).get("line") or b.get("spellingLoc", {}).get("line")
        if ln:
            keep["rline"] = ln
    if "inner" in n:
        keep["inner"] = [prune(c) for c in n["inner"]]
    return keep


def fetch_ast(fn, relfile):
    cache = os.path.join(ast_cache_dir(), "%s@%s.json" % (fn, relfile.replace("/", "_")))
    if os.path.exists(cache):
        return json.load(open(cache))
    src = os.path.join(C.SRC, relfile)
    cmd = ["clang-14", "-fsyntax-only", "-DHAVE_CONFIG_H", "-I%s/include" % C.SRC, "-Wno-everything", "-Xclang",
           "-ast-dump=json", "-Xclang", "-ast-dump-filter=%s" % fn, src]
    import subprocess
    p = subprocess.run(cmd, stdout=subprocess.PIPE, stderr=subprocess.PIPE)
    if p.returncode != 0:
        raise Unsupported("clang failed on %s: %s" % (relfile, p.stderr.decode()[-500:]))
    found = None
    for o in load_objs(p.stdout.decode()):
        if o.get("kind") == "FunctionDecl" and o.get("name") == fn and any(c.get("kind") == "CompoundStmt" for c in o.get("inner", [])):
            found = prune(o)
    if found is None:
        raise Unsupported("no definition of %s in %s" % (fn, relfile))
    import threading
    os.makedirs(os.path.dirname(cache), exist_ok=True)
    tmp = cache + ".tmp%d.%d" % (os.getpid(), threading.get_ident())
    try:
        with open(tmp, "w") as f:
            json.dump(found, f)
        os.rename(tmp, cache)
    except OSError:
        pass        # the cache is an optimisation only
    return found


# ---------------------------------------------------------------------------------------------
def strip(e):
    """remove casts / parens / __builtin_expect / !! wrappers"""
    while True:
        k = e.get("kind")
        if k in ("ImplicitCastExpr", "ParenExpr", "CStyleCastExpr", "ConstantExpr"):
            e = e["inner"][0]
        elif k == "CallExpr" and callee_name(e) == "__builtin_expect":
            e = e["inner"][1]
        elif k == "UnaryOperator" and e.get("opcode") == "!" and strip0(e["inner"][0]).get("kind") == "UnaryOperator" \
                and strip0(e["inner"][0]).get("opcode") == "!":
            e = strip0(e["inner"][0])["inner"][0]
        else:
            return e


def strip0(e):
    while e.get("kind") in ("ImplicitCastExpr", "ParenExpr", "CStyleCastExpr", "ConstantExpr"):
        e = e["inner"][0]
    return e


def callee_name(call):
    f = strip0(call["inner"][0])
    if f.get("kind") == "DeclRefExpr":
        return f.get("ref")
    return None


def callee_member(call):
    f = strip0(call["inner"][0])
    if f.get("kind") == "MemberExpr":
        return f.get("name"), f
    return None, None


def int_value(e):
    e = strip(e)
    k = e.get("kind")
    if k == "IntegerLiteral":
        return int(e["value"])
    if k == "UnaryOperator" and e.get("opcode") == "-":
        v = int_value(e["inner"][0])
        return None if v is None else -v
    if k == "DeclRefExpr" and e.get("refkind") == "EnumConstantDecl":
        return ("enum", e["ref"])
    return None


def is_null(e):
    """NULL, (T)0, or one of the non-zero ABT_*_NULL handle constants ((T)(0x01) … (0x15))"""
    e0 = e
    sawcast = False
    while e0.get("kind") in ("ImplicitCastExpr", "ParenExpr", "CStyleCastExpr"):
        if e0.get("castKind") in ("NullToPointer", "IntegralToPointer"):
            sawcast = True
        e0 = e0["inner"][0]
    if e0.get("kind") == "IntegerLiteral" and sawcast and int(e0["value"]) <= 0x15:
        return True
    return False


class Tr:
    def __init__(self, cfg, ast, enums):
        self.cfg = cfg
        self.fn = cfg["fn"]
        self.name = cfg.get("name", cfg["fn"])
        self.ast = ast
        self.enums = enums
        self.code = []
        self.vars = {}
        self.atoms = {}
        self.sites = None
        self.nlabel = 0
        self.labels_by_decl = {}
        self.brk, self.cont = [], []
        self.ints = set()
        self.rpaths = set(cfg.get("pres", []))
        self.tracked = dict(cfg.get("tracked", {}))
        self.outs = []
        self.params = []
        self.over = cfg.get("over", {})
        self.param = cfg.get("param")
        self.tmpn = 0
        self.extra_pres = []

    # ---- naming
    def var(self, name):
        if name not in self.vars:
            self.vars[name] = len(self.vars)
        return self.vars[name]

    def atom(self, text):
        if text not in self.atoms:
            self.atoms[text] = len(self.atoms)
        return self.atoms[text]

    def newlabel(self, hint="L"):
        self.nlabel += 1
        return "%s%d" % (hint, self.nlabel)

    def emit(self, *ins):
        self.code.append(ins)

    # ---- canonical text of an expression (ledger view)
    def canon(self, e):
        e = strip(e)
        k = e.get("kind")
        if k == "DeclRefExpr":
            return e["ref"]
        if k == "MemberExpr":
            return self.canon(e["inner"][0]) + ("->" if e.get("isArrow") else ".") + e["name"]
        if k == "ArraySubscriptExpr":
            return "%s[%s]" % (self.canon(e["inner"][0]), self.canon(e["inner"][1]))
        if k == "UnaryOperator":
            op = e["opcode"]
            x = self.canon(e["inner"][0])
            if op == "&":
                return norm("&" + x)
            if op == "*":
                return norm("*" + x)
            return op + x
        if k == "IntegerLiteral":
            return e["value"]
        if k == "CallExpr":
            n = callee_name(e)
            if n and (n in IDENTITY or GETTER.match(n)) and len(e["inner"]) >= 2:
                return self.canon(e["inner"][1])
            args = ",".join(self.canon(a) for a in e["inner"][1:])
            return "%s(%s)" % (n or "indirect", args)
        if k == "BinaryOperator":
            return "(%s %s %s)" % (self.canon(e["inner"][0]), e["opcode"], self.canon(e["inner"][1]))
        if k == "UnaryExprOrTypeTraitExpr":
            return "sizeof"
        if k == "ConditionalOperator":
            return "(%s ? %s : %s)" % tuple(self.canon(x) for x in e["inner"])
        if k in ("StringLiteral", "PredefinedExpr", "CharacterLiteral", "FloatingLiteral"):
            return "lit"
        if k == "CompoundLiteralExpr" or k == "InitListExpr":
            return "init"
        raise Unsupported("%s: expression kind %s" % (self.name, k))

    def ref(self, path):
        """Lean Ref for a canonical path; `a[i]` with a tracked integer index becomes an indexed reference"""
        m = re.match(r"^(.*)\[([A-Za-z_]\w*)\]$", path)
        if m and m.group(2) in self.ints:
            return (self.var(m.group(1) + "[]"), self.var(m.group(2)))
        return (self.var(path), None)

    # ---- classification
    def classify(self, call):
        n = callee_name(call)
        if n and GETTER.match(n):
            return PURE, n, None
        if n is None:
            mem, f = callee_member(call)
            if mem in INDIRECT:
                return INDIRECT[mem], mem, self.canon(f["inner"][0])
            raise Unsupported("%s: indirect call through %s" % (self.name, mem))
        if n in self.over:
            return self.over[n], n, None
        if n in CALLEES:
            return CALLEES[n], n, None
        if n in PURE_NAMES or n.startswith(PURE_PREFIX):
            return PURE, n, None
        raise Unsupported("%s: unclassified callee %s" % (self.name, n))

    def subst(self, tmpl, call, fbase):
        args = [self.canon(a) for a in call["inner"][1:]]

        def rep(m):
            key = m.group(1)
            if key == "f":
                return fbase or "?"
            i = int(key)
            if i >= len(args):
                raise Unsupported("%s: template %s needs argument %d" % (self.name, tmpl, i))
            return args[i]
        return norm(re.sub(r"\{(\w+)\}", rep, tmpl))

    # ---- pre-pass: which integer locals steer control flow exactly, which paths hold resources
    def prepass(self):
        decls = {}
        assigns = {}

        def note(name, rhs):
            assigns.setdefault(name, []).append(rhs)

        def walk(n):
            k = n.get("kind")
            if k == "VarDecl":
                decls[n["name"]] = n.get("type", "")
                if n.get("inner"):
                    note(n["name"], n["inner"][-1])
            if k == "BinaryOperator" and n.get("opcode") == "=":
                l = strip(n["inner"][0])
                if l.get("kind") == "DeclRefExpr":
                    note(l["ref"], n["inner"][1])
            if k == "CompoundAssignOperator":
                l = strip(n["inner"][0])
                if l.get("kind") == "DeclRefExpr":
                    note(l["ref"], {"kind": "__incr", "inner": [n["inner"][1]]})
            if k == "UnaryOperator" and n.get("opcode") in ("++", "--"):
                l = strip(n["inner"][0])
                if l.get("kind") == "DeclRefExpr":
                    note(l["ref"], {"kind": "__incr1"})
            for c in n.get("inner", []):
                walk(c)
        walk(self.ast)
        for p in self.ast.get("inner", []):
            if p.get("kind") == "ParmVarDecl":
                self.params.append((p.get("name"), p.get("type", "")))
        cand = {v for v, t in decls.items() if INT_TYPES.match(t.strip())}
        if self.param:
            cand.add(self.param)
        changed = True
        while changed:
            changed = False
            for v in list(cand):
                for rhs in assigns.get(v, []):
                    if not self.int_rhs_ok(rhs, cand):
                        cand.discard(v)
                        changed = True
                        break
        self.ints = cand
        for t in self.tracked:
            pass

    def int_rhs_ok(self, rhs, cand):
        if rhs.get("kind") == "__incr1":
            return True
        if rhs.get("kind") == "__incr":
            return isinstance(int_value(rhs["inner"][0]), int)
        if int_value(rhs) is not None:
            return True
        e = strip(rhs)
        if e.get("kind") == "DeclRefExpr" and e.get("ref") in cand:
            return True
        if e.get("kind") == "CallExpr":
            try:
                cls, _, _ = self.classify(e)
            except Unsupported:
                return False
            return cls[0] in ("acq", "err", "fallible", "fstore", "ktset", "acqenv", "rel")
        return False

    def intconst(self, e):
        v = int_value(e)
        if isinstance(v, tuple):
            if v[1] not in self.enums:
                raise Unsupported("%s: value of enumerator %s unknown" % (self.name, v[1]))
            return self.enums[v[1]]
        return v

    # ---- calls
    def do_call(self, call, errvar=None, ptrdst=None):
        """emit the ledger effect of a call.  errvar: integer variable receiving the error code;
        ptrdst: path receiving the returned pointer"""
        cls, name, fbase = self.classify(call)
        kind = cls[0]
        err = self.ref(errvar) if errvar else None
        if kind == "pure":
            if errvar:
                raise Unsupported("%s: value of pure callee %s assigned to tracked %s" % (self.name, name, errvar))
            return
        site = self.site(name)
        self.emit("mark", site)
        if kind == "acq":
            dst = self.subst(cls[2], call, fbase)
            self.rpaths.add(dst)
            self.emit("acq", site, K[cls[1]], self.ref(dst), err or self.ref(self.scratch()), True)
        elif kind == "acqp":
            if not ptrdst:
                raise Unsupported("%s: pointer returned by %s is not stored in a variable" % (self.name, name))
            self.rpaths.add(ptrdst)
            self.emit("acq", site, K[cls[1]], self.ref(ptrdst), None, True)
        elif kind == "acqi":
            dst = self.subst(cls[2], call, fbase)
            self.rpaths.add(dst)
            self.emit("acq", site, K[cls[1]], self.ref(dst), None, False)
        elif kind == "acqenv":
            # returns ABT_TRUE (resource acquired) or ABT_FALSE (argument rejected; not an allocation failure)
            dst = self.subst(cls[2], call, fbase)
            self.rpaths.add(dst)
            t = errvar or self.scratch()
            lf, le = self.newlabel("rej"), self.newlabel("acc")
            self.emit("havoc", self.ref(t), self.atom("%s rejects" % name))
            self.emit("br", ("cmp", "ne", self.ref(t), 0), False, lf)
            self.emit("acq", site, K[cls[1]], self.ref(dst), None, False)
            self.emit("seti", self.ref(t), 1)
            self.emit("jmp", le)
            self.emit("label", lf)
            self.emit("seti", self.ref(t), 0)
            self.emit("label", le)
        elif kind == "fallible":
            self.emit("fallible", site, err or self.ref(self.scratch()))
        elif kind == "fstore":
            e = err or self.ref(self.scratch())
            self.emit("fallible", site, e)
            path = self.subst(cls[1], call, fbase)
            if path in self.tracked:
                lskip = self.newlabel("fstore")
                self.emit("br", ("cmp", "ne", e, 0), False, lskip)
                self.emit("seti", self.ref(path), self.enums[cls[2]] if isinstance(cls[2], str) else cls[2])
                self.emit("label", lskip)
        elif kind == "err":
            if errvar:
                self.emit("havoc", err, self.atom("%s fails @%s" % (name, call.get("rline", "?"))))
        elif kind == "rel":
            self.emit("rel", site, self.ref(self.subst(cls[1], call, fbase)), bool(cls[2]))
            if err:
                self.emit("seti", err, 0)
        elif kind == "seq":
            for sub in cls[1]:
                assert sub[0] == "rel"
                self.emit("rel", site, self.ref(self.subst(sub[1], call, fbase)), bool(sub[2]))
        elif kind == "store":
            path = self.subst(cls[1], call, fbase)
            if path in self.tracked:
                self.emit("seti", self.ref(path), cls[2])
        elif kind == "ktset":
            dst = self.subst(cls[1], call, fbase)
            self.rpaths.add(dst)
            e = err or self.ref(self.scratch())
            lset, lend = self.newlabel("ktset"), self.newlabel("ktend")
            if cls[2]:
                # table of a pre-existing unit: may or may not exist already (opaque)
                self.emit("br", ("env", self.atom("key table of %s exists" % dst), None), False, lset)
                self.emit("acq", site, K["lazy_ktable"], self.ref(dst), e, True)
            else:
                self.emit("br", ("held", self.ref(dst)), False, lset)
                self.emit("acq", site, K["ktable"], self.ref(dst), e, True)
            self.emit("br", ("cmp", "ne", e, 0), False, lend)
            self.emit("label", lset)
            self.emit("fallible", site, e)
            val = self.subst(cls[3], call, fbase)
            tag = self.atom("key " + self.subst(cls[4], call, fbase))
            if val in self.rpaths:
                # the element's destructor frees the stored value together with the key table
                self.emit("br", ("cmp", "ne", e, 0), False, lend)
                self.emit("give", self.ref(val), self.ref(dst), tag)
            elif is_null(call["inner"][5]) if len(call["inner"]) > 5 else False:
                # the value under this key is overwritten by NULL: its destructor will not run any more
                self.emit("br", ("cmp", "ne", e, 0), False, lend)
                self.emit("ungive", self.ref(dst), tag)
            self.emit("label", lend)
        else:
            raise Unsupported("%s: class %s" % (self.name, kind))

    def scratch(self):
        self.tmpn += 1
        n = "$t%d" % self.tmpn
        self.ints.add(n)
        return n

    def site(self, name):
        return self.sites.setdefault(name, len(self.sites))

    def has_effect_calls(self, e):
        """non-pure calls anywhere inside an expression"""
        out = []

        def walk(n):
            if n.get("kind") == "CallExpr":
                cls, name, _ = self.classify(n)
                if cls[0] != "pure":
                    out.append(n)
            for c in n.get("inner", []):
                walk(c)
        walk(e)
        return out

    # ---- conditions: emit "if (cond == want) goto label"
    def cond_jump(self, e, want, label):
        e = strip(e)
        k = e.get("kind")
        if k == "IntegerLiteral":
            if (int(e["value"]) != 0) == want:
                self.emit("jmp", label)
            return
        if k == "UnaryOperator" and e.get("opcode") == "!":
            return self.cond_jump(e["inner"][0], not want, label)
        if k == "BinaryOperator" and e.get("opcode") in ("&&", "||"):
            a, b = e["inner"]
            is_and = e["opcode"] == "&&"
            if is_and == want:
                # (a && b) true -> both true ; (a || b) false -> both false
                skip = self.newlabel("sc")
                self.cond_jump(a, not want, skip)
                self.cond_jump(b, want, label)
                self.emit("label", skip)
            else:
                self.cond_jump(a, want, label)
                self.cond_jump(b, want, label)
            return
        calls = self.has_effect_calls(e)
        if calls:
            # a classified call inside a condition: hoist it into a scratch variable
            if len(calls) != 1:
                raise Unsupported("%s: several effectful calls in one condition" % self.name)
            call = calls[0]
            cls, name, _ = self.classify(call)
            t = self.scratch()
            if cls[0] == "acqp":
                self.do_call(call, ptrdst=t)
                self.ints.discard(t)
            else:
                self.do_call(call, errvar=t)
            e2 = replace_node(e, call, {"kind": "DeclRefExpr", "ref": t})
            return self.cond_jump(e2, want, label)
        c, neg = self.atomic_cond(e)
        self.emit("br", c, neg != (not want), label)

    def atomic_cond(self, e):
        """(Cond, negated)"""
        e = strip(e)
        k = e.get("kind")
        if k == "DeclRefExpr" and e["ref"] in self.ints:
            return ("cmp", "ne", self.ref(e["ref"]), 0), False
        if k == "BinaryOperator" and e["opcode"] in ("==", "!=", "<", "<=", ">", ">="):
            a, b = strip(e["inner"][0]), strip(e["inner"][1])
            op = {"==": "eq", "!=": "ne", "<": "lt", "<=": "le", ">": "gt", ">=": "ge"}[e["opcode"]]
            pa, pb = self.int_path(a), self.int_path(b)
            if pa and int_value(b) is not None:
                return ("cmp", op, self.ref(pa), self.intconst(b)), False
            if pb and int_value(a) is not None:
                flip = {"eq": "eq", "ne": "ne", "lt": "gt", "le": "ge", "gt": "lt", "ge": "le"}[op]
                return ("cmp", flip, self.ref(pb), self.intconst(a)), False
            if pa and pb:
                return ("cmpv", op, self.ref(pa), self.ref(pb)), False
            if op in ("eq", "ne"):
                for x, y in ((a, e["inner"][1]), (b, e["inner"][0])):
                    if is_null(y) or (strip(y).get("kind") == "IntegerLiteral" and int(strip(y)["value"]) == 0):
                        p = self.res_path(x, True)
                        if p:
                            return ("held", self.ref(p)), op == "eq"
        p = self.res_path(e, True)
        if p:
            return ("held", self.ref(p)), False
        return self.opaque(e)

    def int_path(self, e):
        if e.get("kind") == "DeclRefExpr" and e["ref"] in self.ints:
            return e["ref"]
        try:
            c = self.canon(e)
        except Unsupported:
            return None
        if c in self.tracked:
            return c
        return None

    def res_path(self, e, for_cond=False):
        try:
            c = self.canon(e)
        except Unsupported:
            return None
        c = norm(c)
        m = re.match(r"^(\w+)\[\w+\]$", c)
        if m and m.group(1) in self.cfg.get("prearr", []):
            return None if for_cond else c
        if c in self.rpaths:
            return c
        m = re.match(r"^(.*)\[([A-Za-z_]\w*)\]$", c)
        if m and (m.group(1) + "[]") in {re.sub(r"\[\w+\]$", "[]", r) for r in self.rpaths}:
            return c
        return None

    def opaque(self, e):
        """named opaque atom; `x[i]` with a tracked index i is indexed by the value of i, and an
        equality / inequality pair shares one atom"""
        e = strip(e)
        neg = False
        if e.get("kind") == "BinaryOperator" and e["opcode"] in ("!=",):
            neg = True
            text = "(%s == %s)" % (self.canon(e["inner"][0]), self.canon(e["inner"][1]))
        else:
            text = self.canon(e)
        idx = None
        for m in re.finditer(r"\[([A-Za-z_]\w*)\]", text):
            if m.group(1) in self.ints:
                idx = m.group(1)
                text = text.replace("[%s]" % idx, "[#]")
                break
        return ("env", self.atom(text), self.var(idx) if idx else None), neg

    # ---- statements
    def stmt(self, s):
        k = s.get("kind")
        if k == "CompoundStmt":
            for c in s.get("inner", []):
                self.stmt(c)
        elif k == "NullStmt":
            pass
        elif k == "DeclStmt":
            for d in s.get("inner", []):
                if d.get("kind") == "VarDecl" and d.get("inner"):
                    init = [c for c in d["inner"] if c.get("kind") not in ("FullComment",)]
                    if init:
                        self.assign_to({"kind": "DeclRefExpr", "ref": d["name"], "type": d.get("type")}, init[-1])
                elif d.get("kind") not in ("VarDecl", "RecordDecl", "TypedefDecl", "EnumDecl"):
                    raise Unsupported("%s: declaration %s" % (self.name, d.get("kind")))
        elif k == "IfStmt":
            inner = s["inner"]
            cond, then = inner[0], inner[1]
            els = inner[2] if len(inner) > 2 else None
            lelse, lend = self.newlabel("else"), self.newlabel("fi")
            self.cond_jump(cond, False, lelse)
            self.stmt(then)
            if els is not None:
                self.emit("jmp", lend)
            self.emit("label", lelse)
            if els is not None:
                self.stmt(els)
                self.emit("label", lend)
        elif k == "DoStmt":
            body, cond = s["inner"][0], s["inner"][1]
            ltop, lcont, lend = self.newlabel("do"), self.newlabel("docont"), self.newlabel("od")
            self.emit("label", ltop)
            self.brk.append(lend)
            self.cont.append(lcont)
            self.stmt(body)
            self.brk.pop()
            self.cont.pop()
            self.emit("label", lcont)
            c = strip(cond)
            if not (c.get("kind") == "IntegerLiteral" and int(c["value"]) == 0):
                self.loop_back(cond, ltop)
            self.emit("label", lend)
        elif k == "WhileStmt":
            cond, body = s["inner"][0], s["inner"][1]
            ltop, lend = self.newlabel("while"), self.newlabel("elihw")
            guard = self.loop_guard_init(cond)
            self.emit("label", ltop)
            self.loop_guard_test(guard, lend)
            c = strip(cond)
            if not (c.get("kind") == "IntegerLiteral" and int(c["value"]) != 0):
                self.cond_jump_loop(cond, False, lend, guard)
            self.brk.append(lend)
            self.cont.append(ltop)
            self.stmt(body)
            self.brk.pop()
            self.cont.pop()
            self.loop_guard_step(guard)
            self.emit("jmp", ltop)
            self.emit("label", lend)
        elif k == "ForStmt":
            init, _, cond, inc, body = s["inner"]
            if init and init.get("kind"):
                self.stmt(init) if init.get("kind") in ("DeclStmt", "CompoundStmt") else self.expr_stmt(init)
            ltop, lcont, lend = self.newlabel("for"), self.newlabel("forinc"), self.newlabel("rof")
            guard = self.loop_guard_init(cond) if cond and cond.get("kind") else None
            self.emit("label", ltop)
            self.loop_guard_test(guard, lend)
            if cond and cond.get("kind"):
                self.cond_jump_loop(cond, False, lend, guard)
            self.brk.append(lend)
            self.cont.append(lcont)
            self.stmt(body)
            self.brk.pop()
            self.cont.pop()
            self.emit("label", lcont)
            if inc and inc.get("kind"):
                self.expr_stmt(inc)
            self.loop_guard_step(guard)
            self.emit("jmp", ltop)
            self.emit("label", lend)
        elif k == "SwitchStmt":
            self.switch(s)
        elif k == "BreakStmt":
            if not self.brk:
                raise Unsupported("%s: break outside loop/switch" % self.name)
            self.emit("jmp", self.brk[-1])
        elif k == "ContinueStmt":
            self.emit("jmp", self.cont[-1])
        elif k == "GotoStmt":
            self.emit("jmp", "user:" + s["targetLabelDeclId"])
        elif k == "LabelStmt":
            self.emit("label", "user:" + s["declId"])
            for c in s.get("inner", []):
                self.stmt(c)
        elif k == "ReturnStmt":
            if not s.get("inner"):
                self.emit("ret", None, 0)
                return
            e = strip(s["inner"][0])
            v = int_value(e)
            if v is not None:
                self.emit("ret", None, self.intconst(e))
            elif e.get("kind") == "DeclRefExpr" and e["ref"] in self.ints:
                self.emit("ret", self.ref(e["ref"]), 0)
            elif e.get("kind") == "CallExpr":
                t = self.scratch()
                self.do_call(e, errvar=t)
                self.emit("ret", self.ref(t), 0)
            elif e.get("kind") == "ParenExpr" or e.get("kind") == "DeclRefExpr":
                # return (abt_errno) of an untracked value: opaque error code
                t = self.scratch()
                self.emit("havoc", self.ref(t), self.atom("return value %s" % self.canon(e)))
                self.emit("ret", self.ref(t), 0)
            else:
                raise Unsupported("%s: return of %s" % (self.name, e.get("kind")))
        elif k in ("CaseStmt", "DefaultStmt"):
            raise Unsupported("%s: case label outside switch body" % self.name)
        else:
            self.expr_stmt(s)

    def is_opaque_cond(self, cond):
        """does the loop condition depend only on untracked state?"""
        mark = len(self.code)
        saved = (dict(self.atoms), dict(self.vars), self.nlabel, self.tmpn)
        try:
            self.cond_jump(cond, False, "$probe")
            ops = self.code[mark:]
        finally:
            del self.code[mark:]
        self.atoms, self.vars, self.nlabel, self.tmpn = saved
        return any(i[0] == "br" and i[1][0] == "env" and i[1][2] is None for i in ops)

    def loop_guard_init(self, cond):
        c = strip(cond)
        always = c.get("kind") == "IntegerLiteral" and int(c["value"]) != 0
        if always or self.is_opaque_cond(cond):
            g = self.scratch()
            self.emit("seti", self.ref(g), 0)
            return g
        return None

    def loop_guard_test(self, g, lend):
        if g:
            # exploration bound for data-dependent loops: at most OPAQUE_LOOP_BOUND iterations
            self.emit("br", ("cmp", "ge", self.ref(g), OPAQUE_LOOP_BOUND), False, lend)

    def loop_guard_step(self, g):
        if g:
            self.emit("addi", self.ref(g), 1)

    def cond_jump_loop(self, cond, want, label, guard):
        """loop conditions over untracked state get one opaque atom per iteration"""
        if not guard:
            return self.cond_jump(cond, want, label)
        mark = len(self.code)
        self.cond_jump(cond, want, label)
        for i in range(mark, len(self.code)):
            ins = self.code[i]
            if ins[0] == "br" and ins[1][0] == "env" and ins[1][2] is None:
                self.code[i] = ("br", ("env", ins[1][1], self.var(guard)), ins[2], ins[3])

    def loop_back(self, cond, ltop):
        g = self.loop_guard_init(cond)
        if g:
            raise Unsupported("%s: do-while with opaque condition" % self.name)
        self.cond_jump(cond, True, ltop)

    def switch(self, s):
        subject, body = s["inner"][0], s["inner"][1]
        subj = self.canon(subject)
        lend = self.newlabel("hctiws")
        cases = []          # (label, case text or None for default)
        items = []

        def flatten(n):
            # CaseStmt nests the following statement (and chained cases) inside itself
            if n.get("kind") in ("CaseStmt", "DefaultStmt"):
                lab = self.newlabel("case")
                if n["kind"] == "CaseStmt":
                    cases.append((lab, self.canon(n["inner"][0])))
                    rest = n["inner"][1:]
                else:
                    cases.append((lab, None))
                    rest = n["inner"]
                items.append(("label", lab))
                for r in rest:
                    flatten(r)
            else:
                items.append(("stmt", n))
        if body.get("kind") != "CompoundStmt":
            raise Unsupported("%s: switch body" % self.name)
        for c in body.get("inner", []):
            flatten(c)
        default = lend
        for lab, text in cases:
            if text is None:
                default = lab
            else:
                self.emit("br", ("env", self.atom("%s == %s" % (subj, text)), None), False, lab)
        self.emit("jmp", default)
        self.brk.append(lend)
        for kind, x in items:
            if kind == "label":
                self.emit("label", x)
            else:
                self.stmt(x)
        self.brk.pop()
        self.emit("label", lend)

    def expr_stmt(self, e):
        e0 = strip(e)
        k = e0.get("kind")
        if k == "BinaryOperator" and e0.get("opcode") == "=":
            return self.assign_to(e0["inner"][0], e0["inner"][1])
        if k == "BinaryOperator" and e0.get("opcode") == ",":
            self.expr_stmt(e0["inner"][0])
            return self.expr_stmt(e0["inner"][1])
        if k == "CallExpr":
            cls, name, _ = self.classify(e0)
            # effectful calls nested in the arguments are not supported
            for a in e0["inner"][1:]:
                if self.has_effect_calls(a):
                    raise Unsupported("%s: effectful call nested in arguments of %s" % (self.name, name))
            return self.do_call(e0)
        if k == "UnaryOperator" and e0.get("opcode") in ("++", "--"):
            l = strip(e0["inner"][0])
            if l.get("kind") == "DeclRefExpr" and l["ref"] in self.ints:
                self.emit("addi", self.ref(l["ref"]), 1 if e0["opcode"] == "++" else -1)
            elif self.has_effect_calls(e0):
                raise Unsupported("%s: effect in ++" % self.name)
            return
        if k == "CompoundAssignOperator":
            l = strip(e0["inner"][0])
            if l.get("kind") == "DeclRefExpr" and l["ref"] in self.ints:
                v = self.intconst(e0["inner"][1])
                self.emit("addi", self.ref(l["ref"]), v if e0["opcode"] == "+=" else -v)
            elif self.has_effect_calls(e0):
                raise Unsupported("%s: effect in compound assignment" % self.name)
            return
        if k in ("ConditionalOperator", "UnaryOperator", "BinaryOperator", "DeclRefExpr", "MemberExpr", "StmtExpr",
                 "UnaryExprOrTypeTraitExpr", "IntegerLiteral"):
            if self.has_effect_calls(e0):
                raise Unsupported("%s: effectful call inside %s statement" % (self.name, k))
            return
        raise Unsupported("%s: statement kind %s" % (self.name, k))

    def assign_to(self, lhs, rhs):
        l = strip(lhs)
        r = strip(rhs)
        lname = l.get("ref") if l.get("kind") == "DeclRefExpr" else None
        lpath = norm(self.canon(l))
        # integer variables that steer control flow
        if lname and lname in self.ints:
            v = int_value(r)
            if v is not None:
                return self.emit("seti", self.ref(lname), self.intconst(r))
            if r.get("kind") == "DeclRefExpr" and r["ref"] in self.ints:
                return self.emit("copy", self.ref(lname), self.ref(r["ref"]))
            if r.get("kind") == "CallExpr":
                return self.do_call(r, errvar=lname)
            raise Unsupported("%s: assignment to %s" % (self.name, lname))
        if lpath in self.tracked:
            v = int_value(r)
            if v is None:
                raise Unsupported("%s: non-constant store to tracked %s" % (self.name, lpath))
            return self.emit("seti", self.ref(lpath), self.intconst(r))
        # output handle / resource paths
        is_out = self.is_out_path(lpath)
        if r.get("kind") == "CallExpr":
            cls, name, _ = self.classify(r)
            if cls[0] == "acqp":
                return self.do_call(r, ptrdst=lpath)
            if cls[0] != "pure":
                # error code stored into an untracked integer: still perform the effect
                t = self.scratch()
                self.do_call(r, errvar=t)
                return
        if self.has_effect_calls(r) and not (r.get("kind") == "CallExpr"):
            raise Unsupported("%s: effectful call inside assigned expression" % self.name)
        rn = callee_name(r) if r.get("kind") == "CallExpr" else None
        if rn and not (rn in IDENTITY or GETTER.match(rn)) and not self.res_path(r) \
                and (lpath in self.future_dsts or lpath in self.rpaths) and not is_out:
            # lookup of something that may already exist (e.g. migration data in the key table): the variable is
            # either NULL or a pre-existing resource, decided by the oracle
            text = self.canon(r)
            pre = "pre:" + text
            if pre not in self.extra_pres:
                self.extra_pres.append(pre)
            self.rpaths.add(lpath)
            self.rpaths.add(pre)
            lp, le = self.newlabel("has"), self.newlabel("hasnt")
            self.emit("br", ("env", self.atom("%s != NULL" % text), None), False, lp)
            self.emit("setnull", self.ref(lpath))
            self.emit("jmp", le)
            self.emit("label", lp)
            self.emit("copy", self.ref(lpath), self.ref(pre))
            self.emit("label", le)
            return
        rp = self.res_path(r)
        if not rp and r.get("kind") == "BinaryOperator" and r.get("opcode") in ("+", "-"):
            rp = self.res_path(r["inner"][0])   # interior pointer into an acquired block
        if is_null(rhs) or is_null(r) or (r.get("kind") == "DeclRefExpr" and r.get("ref") in NULL_HANDLES):
            if is_out or lpath in self.rpaths or self.array_res(lpath):
                if is_out and lpath not in self.outs:
                    self.outs.append(lpath)
                self.rpaths.add(lpath)
                return self.emit("setnull", self.ref(lpath))
            if self.will_hold(lpath):
                self.rpaths.add(lpath)
                return self.emit("setnull", self.ref(lpath))
            return
        if rp:
            if is_out and lpath not in self.outs:
                self.outs.append(lpath)
            self.rpaths.add(lpath)
            return self.emit("copy", self.ref(lpath), self.ref(rp))
        if is_out:
            raise Unsupported("%s: output handle %s receives an untracked value %s" % (self.name, lpath, self.canon(r)))
        if lpath in self.rpaths:
            # a resource variable is overwritten by something the ledger does not know
            raise Unsupported("%s: resource variable %s receives an untracked value %s" % (self.name, lpath, self.canon(r)))
        return

    def array_res(self, path):
        m = re.match(r"^(.*)\[\w+\]$", path)
        return bool(m) and any(r.startswith(m.group(1) + "[") for r in self.rpaths)

    def will_hold(self, path):
        return path in self.future_dsts

    def is_out_path(self, path):
        if not path.startswith("*"):
            return False
        base = path[1:]
        for n, t in self.params:
            if n == base and t.count("*") >= 1:
                return True
        return False

    # ---- driver
    def run(self, sites):
        self.sites = sites
        self.prepass()
        self.future_dsts = self.collect_dsts()
        body = [c for c in self.ast["inner"] if c.get("kind") == "CompoundStmt"][0]
        for n in self.cfg.get("nulls", []):
            self.rpaths.add(n)
            self.emit("setnull", self.ref(n))
        self.stmt(body)
        self.emit("ret", None, 0)   # falling off the end (void routines)
        return self.link()

    def collect_dsts(self):
        out = set()

        def walk(n):
            if n.get("kind") == "CallExpr":
                try:
                    cls, name, fbase = self.classify(n)
                    if cls[0] in ("acq", "acqi", "acqenv"):
                        out.add(self.subst(cls[2], n, fbase))
                    if cls[0] == "ktset":
                        out.add(self.subst(cls[1], n, fbase))
                except Unsupported:
                    pass
            if n.get("kind") == "BinaryOperator" and n.get("opcode") == "=":
                r = strip(n["inner"][1])
                if r.get("kind") == "CallExpr":
                    try:
                        cls, _, _ = self.classify(r)
                        if cls[0] == "acqp":
                            out.add(norm(self.canon(n["inner"][0])))
                    except Unsupported:
                        pass
            for c in n.get("inner", []):
                walk(c)
        walk(self.ast)
        return out

    def link(self):
        pos, code = {}, []
        for ins in self.code:
            if ins[0] == "label":
                pos[ins[1]] = len(code)
            else:
                code.append(ins)
        out = []
        for ins in code:
            if ins[0] == "br":
                if ins[3] not in pos:
                    raise Unsupported("%s: jump to unknown label %s" % (self.name, ins[3]))
                out.append(("br", ins[1], ins[2], pos[ins[3]]))
            elif ins[0] == "jmp":
                if ins[1] not in pos:
                    raise Unsupported("%s: goto unknown label %s" % (self.name, ins[1]))
                out.append(("jmp", pos[ins[1]]))
            else:
                out.append(ins)
        return out


def norm(p):
    """`*&x` = x, `&x->thread` = x (the work-unit header is the first member), `(x)` = x"""
    prev = None
    while prev != p:
        prev = p
        p = re.sub(r"^\*&", "", p)
        p = re.sub(r"^&(.*?)(->|\.)thread$", r"\1", p)
        p = re.sub(r"^&\*", "", p)
    return p


def replace_node(tree, target, repl):
    if tree is target:
        return repl
    if "inner" not in tree:
        return tree
    new = dict(tree)
    new["inner"] = [replace_node(c, target, repl) for c in tree["inner"]]
    return new


# ---------------------------------------------------------------------------------------------
def enum_names(ast, acc):
    if ast.get("kind") == "DeclRefExpr" and ast.get("refkind") == "EnumConstantDecl":
        acc.add(ast["ref"])
    for c in ast.get("inner", []):
        enum_names(c, acc)


def enum_values(extra=()):
    """values of the enumerators the ladders mention (compiled against the tree's headers)"""
    names = sorted(set(extra)) + ["ABT_SUCCESS", "ABT_TRUE", "ABT_FALSE", "ABTI_SCHED_NOT_USED", "ABTI_SCHED_MAIN", "ABTI_SCHED_IN_POOL",
             "ABT_ERR_MEM", "ABT_ERR_SYS", "ABT_ERR_OTHER", "ABT_ERR_INV_XSTREAM_RANK", "ABT_ERR_INV_SCHED_PREDEF",
             "ABT_ERR_INV_POOL_KIND", "ABT_ERR_INV_ARG", "ABT_ERR_INV_POOL_ACCESS"]
    d = os.path.join(C.BUILD, "laddergen")
    os.makedirs(d, exist_ok=True)
    src = os.path.join(d, "enums.c")
    exe = os.path.join(d, "enums")
    names = list(dict.fromkeys(names))
    for _ in range(4):
        with open(src, "w") as f:
            f.write('#include "abti.h"\n#include <stdio.h>\nint main(void){\n')
            for n in names:
                f.write('printf("%s %%d\\n", (int)(%s));\n' % (n, n))
            f.write("return 0;}\n")
        rc, out = C.sh("gcc -O0 -ffunction-sections -Wl,--gc-sections %s -I%s %s -o %s" % (C.INC, C.SRC, src, exe))
        if rc == 0:
            break
        # enumerators private to one .c file are not visible here; they are never compared with tracked integers
        bad = set(re.findall(r"[‘'](\w+)[’'] undeclared", out))
        if not bad:
            raise RuntimeError("enum probe failed: " + out[-2000:])
        names = [n for n in names if n not in bad]
    rc, out = C.sh([exe], check=True)
    return {l.split()[0]: int(l.split()[1]) for l in out.strip().split("\n")}


def lean_ref(r):
    return "⟨%d, %s⟩" % (r[0], "none" if r[1] is None else "some %d" % r[1])


def lean_int(n):
    return "(%d)" % n if n < 0 else str(n)


def lean_cond(c):
    if c[0] == "cmp":
        return "(.cmp .%s %s %s)" % (c[1], lean_ref(c[2]), lean_int(c[3]))
    if c[0] == "cmpv":
        return "(.cmpv .%s %s %s)" % (c[1], lean_ref(c[2]), lean_ref(c[3]))
    if c[0] == "held":
        return "(.held %s)" % lean_ref(c[1])
    if c[0] == "env":
        return "(.env %d %s)" % (c[1], "none" if c[2] is None else "(some %d)" % c[2])
    raise ValueError(c)


def lean_instr(i):
    b = lambda x: "true" if x else "false"
    if i[0] == "acq":
        return ".acq %d %d %s %s %s" % (i[1], i[2], lean_ref(i[3]), "none" if i[4] is None else "(some %s)" % lean_ref(i[4]), b(i[5]))
    if i[0] == "fallible":
        return ".fallible %d %s" % (i[1], lean_ref(i[2]))
    if i[0] == "rel":
        return ".rel %d %s %s" % (i[1], lean_ref(i[2]), b(i[3]))
    if i[0] == "mark":
        return ".mark %d" % i[1]
    if i[0] == "give":
        return ".give %s %s %d" % (lean_ref(i[1]), lean_ref(i[2]), i[3])
    if i[0] == "ungive":
        return ".ungive %s %d" % (lean_ref(i[1]), i[2])
    if i[0] == "seti":
        return ".seti %s %s" % (lean_ref(i[1]), lean_int(i[2]))
    if i[0] == "copy":
        return ".copy %s %s" % (lean_ref(i[1]), lean_ref(i[2]))
    if i[0] == "setnull":
        return ".setnull %s" % lean_ref(i[1])
    if i[0] == "havoc":
        return ".havoc %s %d" % (lean_ref(i[1]), i[2])
    if i[0] == "addi":
        return ".addi %s %s" % (lean_ref(i[1]), lean_int(i[2]))
    if i[0] == "br":
        return ".br %s %s %d" % (lean_cond(i[1]), b(i[2]), i[3])
    if i[0] == "jmp":
        return ".jmp %d" % i[1]
    if i[0] == "ret":
        return ".ret %s %s" % ("none" if i[1] is None else "(some %s)" % lean_ref(i[1]), lean_int(i[2]))
    raise ValueError(i)


def lean_strs(xs):
    return "[" + ", ".join('"%s"' % x.replace("\\", "\\\\").replace('"', "'") for x in xs) + "]"


UNSUPPORTED = []


def translate_all():
    del UNSUPPORTED[:]
    uniq = sorted({(r["fn"], r["file"]) for r in ROUTINES})
    with ThreadPoolExecutor(C.NCPU) as ex:
        got = dict(zip(uniq, ex.map(lambda k: fetch_ast(*k), uniq)))   # a missing routine raises
    asts = [got[(r["fn"], r["file"])] for r in ROUTINES]
    names = set()
    for a in asts:
        enum_names(a, names)
    enums = enum_values(names)
    sites = {}
    progs = []
    for cfg, ast in zip(ROUTINES, asts):
        t = Tr(cfg, ast, enums)
        try:
            code = t.run(sites)
        except Unsupported as ex:
            # the model no longer covers this routine: emit an empty program (every theorem about it fails,
            # the check then searches for a failing input) and report why
            UNSUPPORTED.append(str(ex))
            t = Tr(cfg, ast, enums)
            t.sites = sites
            t.unsupported = str(ex)
            code = []
        for p in cfg.get("pres", []) + t.extra_pres:
            t.var(p)
        for p in t.tracked:
            t.var(p)
        progs.append((t, code))
    return progs, sites


def render(progs, sites):
    L = ["/- GENERATED by tools/laddergen.py from the clang AST of /repo/src on every check run. Do not edit. -/",
         "import ArgoVerif.Model.Ledger", "namespace ArgoVerif.Gen.Ladders", "open ArgoVerif.Model.Ledger", ""]
    L.append("def kindNames : List String := %s" % lean_strs(KINDS))
    for i, k in enumerate(KINDS):
        L.append("abbrev K_%s : Kind := %d" % (k, i))
    inv = sorted(sites.items(), key=lambda kv: kv[1])
    L.append("def siteNames : List String := %s" % lean_strs([k for k, _ in inv]))
    L.append("")
    for t, code in progs:
        vn = sorted(t.vars.items(), key=lambda kv: kv[1])
        an = sorted(t.atoms.items(), key=lambda kv: kv[1])
        L.append("/-- `%s` (%s)%s -/" % (t.fn, t.cfg["file"], "" if not getattr(t, "unsupported", None)
                                            else "  NOT TRANSLATED: " + t.unsupported.replace("-/", "- /")))
        L.append("def %s : Prog := {" % t.name)
        L.append('  name := "%s"' % t.name)
        L.append("  code := [")
        for n, i in enumerate(code):
            L.append("    %s%s  -- %d" % (lean_instr(i), "," if n + 1 < len(code) else "", n))
        L.append("  ]")
        L.append("  pres := [%s]" % ", ".join(str(t.vars[p]) for p in t.cfg.get("pres", []) + t.extra_pres))
        L.append("  outs := [%s]" % ", ".join(str(t.vars[p]) for p in t.outs))
        L.append("  tracked := [%s]" % ", ".join("(%d, %s)" % (t.vars[p], lean_int(v)) for p, v in t.tracked.items()))
        pres_all = t.cfg.get("pres", []) + t.extra_pres
        flds = [(q, pres_all.index(q)) for q in t.cfg.get("pres", []) if "->" in q] + \
               [(q, None) for q in t.cfg.get("nulls", []) if "->" in q]
        L.append("  fields := [%s]" % ", ".join("(%d, %s)" % (t.var(q), "none" if i is None else "some %d" % i) for q, i in flds))
        L.append("  preArrays := [%s]" % ", ".join(str(t.var(a + "[]")) for a in t.cfg.get("prearr", [])))
        L.append("  param := %s }" % ("none" if not t.param else "some %d" % t.var(t.param)))
        vn = sorted(t.vars.items(), key=lambda kv: kv[1])
        L.append("def %s_vars : List String := %s" % (t.name, lean_strs([k for k, _ in vn])))
        L.append("def %s_atoms : List String := %s" % (t.name, lean_strs([k for k, _ in an])))
        L.append("")
    L.append("def all : List (Prog × List String × List String) := [")
    L.append(",\n".join("  (%s, %s_vars, %s_atoms)" % (t.name, t.name, t.name) for t, _ in progs))
    L.append("]")
    L += ["", "end ArgoVerif.Gen.Ladders", ""]
    return "\n".join(L)


def generate():
    progs, sites = translate_all()
    txt = render(progs, sites)
    changed = C.write_if_changed(os.path.join(C.LEAN, "ArgoVerif", "Gen", "Ladders.lean"), txt)
    return {"routines": len(progs), "instructions": sum(len(c) for _, c in progs), "sites": len(sites), "changed": changed,
            "unsupported": list(UNSUPPORTED)}


if __name__ == "__main__":
    if len(sys.argv) > 1:
        ROUTINES[:] = [r for r in ROUTINES if r.get("name", r["fn"]) in sys.argv[1:]]
    try:
        print(generate())
    except Unsupported as e:
        print("UNSUPPORTED:", e)
        sys.exit(1)
