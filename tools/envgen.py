"""T0 (environment table): translate /repo/src/arch/abtd_env.c into ArgoVerif/Gen/EnvTable.lean.

For every `load_env_<kind>("SUFFIX", default, min, max)` call that survives the
tree's conditional compilation (found in `gcc -E -fdirectives-only` output, so
#ifdef'ed-out calls are not listed) the translator records
  * the variable names in lookup order (prefix list of get_abt_env(): deprecated
    alias ABT_ENV_* included),
  * the kind (bool/int/uint32/uint64/size),
  * default / min / max: evaluated to a number by compiling a tiny C program that
    #includes abtd_env.c itself (so its #defines and the tree's headers are the
    ones used); an expression that is not a compile-time constant (depends on
    sysconf(), on another setting, ...) is kept as `Val.dyn "<C text>"`,
  * the rounding wrappers applied to the loaded value, innermost first
    (roundup_pow2_*, ABTU_roundup_*(.., multiple)),
  * what the result is assigned to / returned from.
Also emitted: parser constants that live inside .c files (MAX_NUM_ELEMS of
abtd_affinity_parser.c) and the C type limits the parser models depend on."""
import os, re, sys
sys.path.insert(0, os.path.dirname(os.path.dirname(os.path.abspath(__file__))))
from vlib import common as C

KINDS = ["bool", "int", "uint32", "uint64", "size"]
POW2 = {"roundup_pow2_uint32", "roundup_pow2_size"}
MULT = {"ABTU_roundup_uint32", "ABTU_roundup_uint64", "ABTU_roundup_size"}

EXTRA_CONSTS = [  # (lean name, C expr, signed?)
    ("sizeofSizeT", "sizeof(size_t)", False),
    ("cIntMax", "INT_MAX", True),
    ("cIntMin", "INT_MIN", True),
    ("cUint32Max", "UINT32_MAX", False),
    ("cUint64Max", "UINT64_MAX", False),
    ("cSizeMax", "SIZE_MAX", False),
    ("errSuccess", "ABT_SUCCESS", True),
    ("errInvArg", "ABT_ERR_INV_ARG", True),
    ("errOther", "ABT_ERR_OTHER", True),
    ("errMem", "ABT_ERR_MEM", True),
    ("cfgDefaultThreadStacksize", "ABT_CONFIG_DEFAULT_THREAD_STACKSIZE", False),
    ("cfgStackGuardDefaultMprotect", "(ABT_CONFIG_STACK_CHECK_TYPE == ABTI_STACK_CHECK_TYPE_MPROTECT || ABT_CONFIG_STACK_CHECK_TYPE == ABTI_STACK_CHECK_TYPE_MPROTECT_STRICT)", False),
    ("cfgStackGuardDefaultStrict", "(ABT_CONFIG_STACK_CHECK_TYPE == ABTI_STACK_CHECK_TYPE_MPROTECT_STRICT)", False),
    ("stackGuardNone", "ABTI_STACK_GUARD_NONE", False),
    ("stackGuardMprotect", "ABTI_STACK_GUARD_MPROTECT", False),
    ("stackGuardMprotectStrict", "ABTI_STACK_GUARD_MPROTECT_STRICT", False),
    # ABT_sched_config / ABT_pool_config (sched_config.c, pool_config.c)
    ("schedConfigHtableSize", "SCHED_CONFIG_HTABLE_SIZE", False),
    ("poolConfigHtableSize", "POOL_CONFIG_HTABLE_SIZE", False),
    ("schedConfigInt", "ABT_SCHED_CONFIG_INT", True),
    ("schedConfigDouble", "ABT_SCHED_CONFIG_DOUBLE", True),
    ("schedConfigPtr", "ABT_SCHED_CONFIG_PTR", True),
    ("poolConfigInt", "ABT_POOL_CONFIG_INT", True),
    ("poolConfigDouble", "ABT_POOL_CONFIG_DOUBLE", True),
    ("poolConfigPtr", "ABT_POOL_CONFIG_PTR", True),
    ("schedConfigVarEndIdx", "ABT_sched_config_var_end.idx", True),
    ("schedConfigAccessIdx", "ABT_sched_config_access.idx", True),
    ("schedConfigAutomaticIdx", "ABT_sched_config_automatic.idx", True),
    ("schedBasicFreqIdx", "ABT_sched_basic_freq.idx", True),
    ("poolConfigAutomaticKey", "ABT_pool_config_automatic.key", True),
    ("sizeofSchedConfigElement", "sizeof(sched_config_element)", False),
    ("sizeofPoolConfigElement", "sizeof(pool_config_element)", False),
]


def active_text(path):
    """Text of `path` after conditional compilation, macros unexpanded."""
    rc, out = C.sh("gcc -E -fdirectives-only %s -I%s %s" % (C.INC, C.SRC, path), check=True)
    keep, cur = [], None
    base = os.path.basename(path)
    for line in out.split("\n"):
        m = re.match(r'#\s*(\d+)\s+"([^"]*)"', line)
        if m:
            cur = m.group(2)
            continue
        if cur and os.path.basename(cur) == base and not line.startswith("#"):
            keep.append(line)
    txt = "\n".join(keep)
    txt = re.sub(r"/\*.*?\*/", " ", txt, flags=re.S)
    return txt


def split_args(txt, start):
    """txt[start] == '(' ; returns (list of top-level args, index after ')')."""
    assert txt[start] == "("
    depth, i, cur, args = 0, start, [], []
    while True:
        ch = txt[i]
        if ch == "(":
            depth += 1
            if depth > 1:
                cur.append(ch)
        elif ch == ")":
            depth -= 1
            if depth == 0:
                args.append("".join(cur).strip())
                return args, i + 1
            cur.append(ch)
        elif ch == "," and depth == 1:
            args.append("".join(cur).strip())
            cur = []
        elif ch == '"':
            j = txt.index('"', i + 1)
            cur.append(txt[i:j + 1])
            i = j
        else:
            cur.append(ch)
        i += 1


def enclosing_calls(txt, pos):
    """Function calls whose argument list contains position pos, innermost first:
    [(name, args, index of the arg containing pos)], and the statement head."""
    # statement start
    s = max(txt.rfind(";", 0, pos), txt.rfind("{", 0, pos), txt.rfind("}", 0, pos)) + 1
    stack = []
    i = s
    while i < pos:
        ch = txt[i]
        if ch == "(":
            m = re.search(r"([A-Za-z_]\w*)\s*$", txt[s:i])
            stack.append((m.group(1) if m else "", i))
        elif ch == ")":
            stack.pop()
        elif ch == '"':
            i = txt.index('"', i + 1)
        i += 1
    res = []
    for name, p in reversed(stack):
        if not name:
            continue
        args, _ = split_args(txt, p)
        # which arg holds pos
        depth, k, j = 0, 0, p
        while j < pos:
            if txt[j] == "(":
                depth += 1
            elif txt[j] == ")":
                depth -= 1
            elif txt[j] == "," and depth == 1:
                k += 1
            j += 1
        res.append((name, args, k))
    head = txt[s:stack[0][1] if stack else pos]
    return res, " ".join(txt[s:pos].split())


def enclosing_function(txt, pos):
    best = None
    for m in re.finditer(r"^[A-Za-z_][\w \*]*?\b(\w+)\s*\([^;{}]*\)\s*\{", txt, re.M):
        if m.start() < pos:
            best = m.group(1)
    return best


def find_calls(txt):
    out = []
    for m in re.finditer(r"\bload_env_(%s)\s*\(" % "|".join(KINDS), txt):
        # skip prototypes/definitions: preceded by a type on the same statement
        pre = txt[max(0, m.start() - 40):m.start()]
        if re.search(r"\b(ABT_bool|int|uint32_t|uint64_t|size_t)\s+$", pre):
            continue
        args, end = split_args(txt, m.end() - 1)
        if not args or not args[0].startswith('"'):
            continue
        wr, stmt = enclosing_calls(txt, m.start())
        fn = enclosing_function(txt, m.start())
        tm = re.search(r"(p_global->\w+)\s*=", stmt)
        target = tm.group(1) if tm else (fn + "()" if fn else "?")
        out.append({"kind": m.group(1), "suffix": args[0].strip('"'), "args": args[1:], "wrappers": wr,
                    "target": target, "fn": fn})
    return out


def resolve_local(txt, expr):
    """A default given as a plain local variable that is assigned exactly once in the
    (preprocessed) file is replaced by its initialiser (which may then evaluate to a constant)."""
    e = expr.strip()
    if not re.fullmatch(r"[A-Za-z_]\w*", e):
        return expr
    asg = re.findall(r"\b%s\s*([-+*/|&]?=)(?!=)\s*([^;]+);" % re.escape(e), txt)
    if len(asg) == 1 and asg[0][0] == "=":
        return "(" + " ".join(asg[0][1].split()) + ")"
    return expr


def evaluate(exprs):
    """exprs: list of (C text, signed).  Returns list of int or None (not a constant here)."""
    d = os.path.join(C.BUILD, "envgen")
    os.makedirs(d, exist_ok=True)
    src = os.path.join(d, "envgen_eval.c")
    exe = os.path.join(d, "envgen_eval")
    dyn = set()
    for attempt in range(3):
        lines = ['#include "arch/abtd_env.c"', '#include "arch/abtd_affinity_parser.c"',
                 '#include "sched/sched_config.c"', '#include "pool/pool_config.c"', "#include <stdio.h>",
                 "#include <limits.h>", "#include <stdint.h>"]
        where = {}
        for i, (e, signed) in enumerate(exprs):
            if i in dyn:
                continue
            where[len(lines) + 1] = i
            t = "long long" if signed else "unsigned long long"
            lines.append("static %s f_%d(void) { return (%s)(%s); }" % (t, i, t, e))
        lines.append("int main(void) {")
        for i, (e, signed) in enumerate(exprs):
            if i in dyn:
                continue
            lines.append('  printf("%d %s\\n", f_%d());' % (i, "%lld" if signed else "%llu", i))
        lines.append("  return 0; }")
        with open(src, "w") as f:
            f.write("\n".join(lines) + "\n")
        rc, out = C.sh("gcc -O0 -w -ffunction-sections -Wl,--gc-sections %s -I%s %s -o %s %s -lpthread -lm" %
                       (C.INC, C.SRC, src, exe, "-Wl,--unresolved-symbols=ignore-all"))
        if rc == 0:
            break
        bad = set()
        for m in re.finditer(r"envgen_eval\.c:(\d+):\d+: error", out):
            ln = int(m.group(1))
            if ln in where:
                bad.add(where[ln])
        if not bad:
            raise RuntimeError("envgen: evaluation program does not compile:\n" + out[-3000:])
        dyn |= bad
    else:
        raise RuntimeError("envgen: could not isolate non-constant expressions")
    rc, out = C.sh([exe], check=True)
    vals = [None] * len(exprs)
    for l in out.strip().split("\n"):
        i, v = l.split()
        vals[int(i)] = int(v)
    return vals


def lean_str(s):
    return '"' + s.replace("\\", "\\\\").replace('"', '\\"') + '"'


def lean_int(v):
    return "(%d)" % v if v < 0 else str(v)


HEADER = '''/- GENERATED by tools/envgen.py from /repo/src/arch/abtd_env.c (+ abtd_affinity_parser.c) on every check run.
   Do not edit. -/
namespace ArgoVerif.Gen.EnvTable

inductive Kind where
  | bool | int | uint32 | uint64 | size
deriving DecidableEq, Repr

/-- a bound / default: a compile-time constant of the tree, or an expression that
depends on the run (number of cores, page size, another setting): kept symbolic -/
inductive Val where
  | const (v : Int)
  | dyn (cExpr : String)
deriving DecidableEq, Repr

/-- rounding wrapper applied to the loaded (already clamped) value -/
inductive Rnd where
  | pow2                 -- roundup_pow2_uint32 / roundup_pow2_size
  | multiple (m : Nat)   -- ABTU_roundup_*(v, m)
deriving DecidableEq, Repr

structure Entry where
  suffix : String
  names : List String      -- getenv() lookup order (first hit wins)
  kind : Kind
  dflt : Val
  min : Val                -- meaningless for Kind.bool
  max : Val
  rnd : List Rnd           -- innermost first
  target : String
deriving Repr
'''


def generate():
    env_c = os.path.join(C.SRC, "arch", "abtd_env.c")
    aff_c = os.path.join(C.SRC, "arch", "abtd_affinity_parser.c")
    txt = active_text(env_c)
    calls = find_calls(txt)
    pm = re.search(r"prefixes\s*\[\s*\]\s*=\s*\{([^}]*)\}", txt)
    prefixes = re.findall(r'"([^"]*)"', pm.group(1)) if pm else []
    if not prefixes or not calls:
        raise RuntimeError("envgen: could not find prefixes / load_env_* calls in abtd_env.c")
    am = re.search(r"^#define\s+MAX_NUM_ELEMS\s+(.*)$", open(aff_c).read(), re.M)
    if not am:
        raise RuntimeError("envgen: MAX_NUM_ELEMS not found in abtd_affinity_parser.c")
    exprs = []
    for c in calls:
        signed = c["kind"] == "int"
        c["idx"] = []
        for a in c["args"]:
            c["idx"].append(len(exprs))
            exprs.append((a, signed, resolve_local(txt, a)))
        c["midx"] = []
        for (name, args, k) in c["wrappers"]:
            if name in MULT:
                c["midx"].append(len(exprs))
                exprs.append((args[1], False, args[1]))
            else:
                c["midx"].append(None)
    base = len(exprs)
    exprs.append((am.group(1).strip(), False, am.group(1).strip()))
    for (_, e, s) in EXTRA_CONSTS:
        exprs.append((e, s, e))
    defs = re.findall(r"^#define\s+(ABTD_\w+)\s+(.+)$", open(env_c).read(), re.M)
    dbase = len(exprs)
    for (n, e) in defs:
        exprs.append((e, True, e))
    vals = evaluate([(r, sg) for (_, sg, r) in exprs])

    def val(i):
        return "Val.const %s" % lean_int(vals[i]) if vals[i] is not None else "Val.dyn %s" % lean_str(" ".join(exprs[i][0].split()))

    global _ROWS
    _ROWS = []
    for c in calls:
        def pv(i):
            return vals[i] if vals[i] is not None else " ".join(exprs[i][0].split())
        rnd = []
        for (name, args, k), mi in zip(c["wrappers"], c["midx"]):
            rnd.append(("pow2",) if name in POW2 else ("mult", vals[mi]))
        if c["kind"] == "bool":
            _ROWS.append({"suffix": c["suffix"], "kind": "bool", "dflt": pv(c["idx"][0]), "min": 0, "max": 1, "rnd": rnd,
                          "names": [p + c["suffix"] for p in prefixes]})
        else:
            _ROWS.append({"suffix": c["suffix"], "kind": c["kind"], "dflt": pv(c["idx"][0]), "min": pv(c["idx"][1]),
                          "max": pv(c["idx"][2]), "rnd": rnd, "names": [p + c["suffix"] for p in prefixes]})
    L = [HEADER]
    L.append("def prefixes : List String := [%s]" % ", ".join(lean_str(p) for p in prefixes))
    L.append("")
    L.append("def table : List Entry := [")
    rows = []
    summary = []
    for c in calls:
        rnd = []
        for (name, args, k), mi in zip(c["wrappers"], c["midx"]):
            if name in POW2:
                rnd.append("Rnd.pow2")
            elif name in MULT:
                if vals[mi] is None:
                    raise RuntimeError("envgen: non-constant rounding multiple for " + c["suffix"])
                rnd.append("Rnd.multiple %d" % vals[mi])
            else:
                raise RuntimeError("envgen: unknown wrapper %s around load_env_%s(%s)" % (name, c["kind"], c["suffix"]))
        if c["kind"] == "bool":
            d, mn, mx = val(c["idx"][0]), "Val.const 0", "Val.const 1"
        else:
            d, mn, mx = (val(i) for i in c["idx"])
        rows.append("  { suffix := %s, names := [%s], kind := Kind.%s,\n    dflt := %s, min := %s, max := %s,\n    rnd := [%s], target := %s }" % (
            lean_str(c["suffix"]), ", ".join(lean_str(p + c["suffix"]) for p in prefixes), c["kind"], d, mn, mx,
            ", ".join(rnd), lean_str(c["target"])))
        summary.append(c["suffix"])
    L.append(",\n".join(rows))
    L.append("]")
    L.append("")
    L.append("/-- `#define MAX_NUM_ELEMS %s` of abtd_affinity_parser.c -/" % am.group(1).strip())
    L.append("def maxNumElems : Nat := %d" % vals[base])
    for j, (n, e, s) in enumerate(EXTRA_CONSTS):
        v = vals[base + 1 + j]
        if v is None:
            raise RuntimeError("envgen: cannot evaluate " + e)
        L.append("def %s : %s := %s  -- %s" % (n, "Int" if s else "Nat", lean_int(v), e))
    L.append("")
    L.append("/-- numeric `#define ABTD_*` macros of abtd_env.c (used by the hand-modelled dynamic defaults) -/")
    L.append("def defines : List (String × Int) := [")
    L.append(",\n".join("  (%s, %s)" % (lean_str(n), lean_int(vals[dbase + j] if vals[dbase + j] < 2**63 else vals[dbase + j]))
                         for j, (n, e) in enumerate(defs) if vals[dbase + j] is not None))
    L.append("]")
    L += ["", "end ArgoVerif.Gen.EnvTable", ""]
    changed = C.write_if_changed(os.path.join(C.LEAN, "ArgoVerif", "Gen", "EnvTable.lean"), "\n".join(L))
    return {"n": len(calls), "vars": summary, "changed": changed}


_ROWS = None


def rows():
    """structured rows of the table as last generated (generates when needed)"""
    if _ROWS is None:
        generate()
    return _ROWS


if __name__ == "__main__":
    print(generate())
