"""T0 (constants): compile a tiny C program against /repo's headers and emit the
values the Lean models depend on as ArgoVerif/Gen/Consts.lean."""
import os, sys
sys.path.insert(0, os.path.dirname(os.path.dirname(os.path.abspath(__file__))))
from vlib import common as C

# (lean name, C expression)  -- all printed as long long
CONSTS = [
    ("threadStateReady", "ABT_THREAD_STATE_READY"),
    ("threadStateRunning", "ABT_THREAD_STATE_RUNNING"),
    ("threadStateBlocked", "ABT_THREAD_STATE_BLOCKED"),
    ("threadStateTerminated", "ABT_THREAD_STATE_TERMINATED"),
    ("threadReqJoin", "ABTI_THREAD_REQ_JOIN"),
    ("threadReqCancel", "ABTI_THREAD_REQ_CANCEL"),
    ("threadReqMigrate", "ABTI_THREAD_REQ_MIGRATE"),
    ("schedReqFinish", "ABTI_SCHED_REQ_FINISH"),
    ("schedReqExit", "ABTI_SCHED_REQ_EXIT"),
    ("schedReqReplace", "ABTI_SCHED_REQ_REPLACE"),
    ("typeThread", "ABTI_THREAD_TYPE_THREAD"),
    ("typeRoot", "ABTI_THREAD_TYPE_ROOT"),
    ("typePrimary", "ABTI_THREAD_TYPE_PRIMARY"),
    ("typeMainSched", "ABTI_THREAD_TYPE_MAIN_SCHED"),
    ("typeYieldable", "ABTI_THREAD_TYPE_YIELDABLE"),
    ("typeNamed", "ABTI_THREAD_TYPE_NAMED"),
    ("typeMigratable", "ABTI_THREAD_TYPE_MIGRATABLE"),
    ("typeMemMempoolDesc", "ABTI_THREAD_TYPE_MEM_MEMPOOL_DESC"),
    ("typeMemMallocDesc", "ABTI_THREAD_TYPE_MEM_MALLOC_DESC"),
    ("typeMemMempoolDescStack", "ABTI_THREAD_TYPE_MEM_MEMPOOL_DESC_STACK"),
    ("typeMemMallocDescStack", "ABTI_THREAD_TYPE_MEM_MALLOC_DESC_STACK"),
    ("unitHashTableSizeExp", "ABTI_UNIT_HASH_TABLE_SIZE_EXP"),
    ("unitHashTableSize", "ABTI_UNIT_HASH_TABLE_SIZE"),
    ("keyIdEnd", "ABTI_KEY_ID_END_"),
    ("keyIdStackableSched", "ABTI_KEY_ID_STACKABLE_SCHED"),
    ("keyIdMigration", "ABTI_KEY_ID_MIGRATION"),
    ("memPoolDescElemSize", "ABTI_MEM_POOL_DESC_ELEM_SIZE"),
    ("cacheLine", "ABT_CONFIG_STATIC_CACHELINE_SIZE"),
    ("sizeofYthread", "sizeof(ABTI_ythread)"),
    ("sizeofThread", "sizeof(ABTI_thread)"),
    ("defaultStackSize", "ABT_CONFIG_DEFAULT_THREAD_STACKSIZE"),
    ("ctxOpCreate", "ABT_POOL_CONTEXT_OP_THREAD_CREATE"),
    ("ctxOpCreateTo", "ABT_POOL_CONTEXT_OP_THREAD_CREATE_TO"),
    ("ctxOpRevive", "ABT_POOL_CONTEXT_OP_THREAD_REVIVE"),
    ("ctxOpReviveTo", "ABT_POOL_CONTEXT_OP_THREAD_REVIVE_TO"),
    ("ctxOpYield", "ABT_POOL_CONTEXT_OP_THREAD_YIELD"),
    ("ctxOpYieldTo", "ABT_POOL_CONTEXT_OP_THREAD_YIELD_TO"),
    ("ctxOpResumeYieldTo", "ABT_POOL_CONTEXT_OP_THREAD_RESUME_YIELD_TO"),
    ("ctxOpYieldLoop", "ABT_POOL_CONTEXT_OP_THREAD_YIELD_LOOP"),
    ("ctxOpResume", "ABT_POOL_CONTEXT_OP_THREAD_RESUME"),
    ("ctxOpMigrate", "ABT_POOL_CONTEXT_OP_THREAD_MIGRATE"),
    ("ctxOpOther", "ABT_POOL_CONTEXT_OP_POOL_OTHER"),
    ("ctxOwnerPrimary", "ABT_POOL_CONTEXT_OWNER_PRIMARY"),
    ("ctxOwnerSecondary", "ABT_POOL_CONTEXT_OWNER_SECONDARY"),
    ("errSuccess", "ABT_SUCCESS"),
    ("errInvArg", "ABT_ERR_INV_ARG"),
    ("errMem", "ABT_ERR_MEM"),
    ("errCondTimedout", "ABT_ERR_COND_TIMEDOUT"),
    ("hashtableHeaderSize", "sizeof(ABTU_hashtable)"),
    ("hashtableElemSize", "sizeof(ABTU_hashtable_element)"),
    ("intMax", "INT_MAX"),
    ("intMin", "INT_MIN"),
    ("uint32Max", "UINT32_MAX"),
    # C16 key table layout / C14 unit map (checks/c16.py, checks/c14.py)
    ("ktableDescSize", "ABTI_KTABLE_DESC_SIZE"),
    ("ktableHdrSize", "offsetof(ABTI_ktable, p_elems)"),
    ("ktableMemHeaderSize", "sizeof(ABTI_ktable_mem_header)"),
    ("ktableSlotSize", "sizeof(ABTD_atomic_ptr)"),
    ("maxAlignment", "ABTU_MAX_ALIGNMENT"),
    ("ktelemSize", "(sizeof(ABTI_ktelem) + ABTU_MAX_ALIGNMENT - 1) & (~(ABTU_MAX_ALIGNMENT - 1))"),
    ("unitBuiltinPoolBit", "ABTI_UNIT_BUILTIN_POOL_BIT"),
    ("unitNull", "(uintptr_t)ABT_UNIT_NULL"),
    ("errOther", "ABT_ERR_OTHER"),
    ("errInvUnit", "ABT_ERR_INV_UNIT"),
    ("errMigrationTarget", "ABT_ERR_MIGRATION_TARGET"),
    # C15 memory pool / stack geometry (checks/c15.py)
    ("memPoolMaxLocalBuckets", "ABT_MEM_POOL_MAX_LOCAL_BUCKETS"),
    ("memPoolNumReturnBuckets", "ABT_MEM_POOL_NUM_RETURN_BUCKETS"),
    ("memPoolNumTakeBuckets", "ABT_MEM_POOL_NUM_TAKE_BUCKETS"),
    ("sizeofMemPoolPage", "sizeof(ABTI_mem_pool_page)"),
    ("sizeofMemPoolHeader", "sizeof(ABTI_mem_pool_header)"),
    ("taggedPtrCas", "ABTD_ATOMIC_SUPPORT_TAGGED_PTR"),
    # widths (bytes) of the counters that the Lean models treat as unbounded naturals / integers: the theorems hold for
    # values below 2^(8*width-1); a narrower field would make the bound reachable by an ordinary program
    ("bytesMutexNestingCnt", "sizeof(((ABTI_mutex *)0)->nesting_cnt)"),
    ("bytesPoolNumBlocked", "sizeof(((ABTI_pool *)0)->num_blocked)"),
    ("bytesPoolNumScheds", "sizeof(((ABTI_pool *)0)->num_scheds)"),
    ("bytesThreadRequest", "sizeof(((ABTI_thread *)0)->request)"),
    ("bytesSchedRequest", "sizeof(((ABTI_sched *)0)->request)"),
    ("bytesBarrierCounter", "sizeof(((ABTI_barrier *)0)->counter)"),
    ("bytesBarrierNumWaiters", "sizeof(((ABTI_barrier *)0)->num_waiters)"),
    ("bytesFutureCounter", "sizeof(((ABTI_future *)0)->counter)"),
    ("bytesFutureNumCompartments", "sizeof(((ABTI_future *)0)->num_compartments)"),
    ("bytesRwlockReaderCount", "sizeof(((ABTI_rwlock *)0)->reader_count)"),
    ("bytesFutexVal", "sizeof(((ABTD_futex_multiple *)0)->val)"),
    ("bytesXstreamRank", "sizeof(((ABTI_xstream *)0)->rank)"),
    ("useAlignedAlloc", "ABT_CONFIG_USE_ALIGNED_ALLOC"),
    ("offsetofYthreadCtx", "offsetof(ABTI_ythread, ctx)"),
]


def generate():
    d = os.path.join(C.BUILD, "constgen")
    os.makedirs(d, exist_ok=True)
    src = os.path.join(d, "constgen.c")
    body = ['#include "abti.h"', "#include <stdio.h>", "#include <limits.h>", "int main(void){"]
    for name, expr in CONSTS:
        body.append('  printf("%s %%lld\\n", (long long)(%s));' % (name, expr))
    body.append("  return 0;}")
    with open(src, "w") as f:
        f.write("\n".join(body) + "\n")
    exe = os.path.join(d, "constgen")
    C.sh("gcc -O1 -ffunction-sections -Wl,--gc-sections %s -I%s %s -o %s" % (C.INC, C.SRC, src, exe), check=True)
    rc, out = C.sh([exe], check=True)
    lines = ["/- GENERATED by tools/constgen.py from /repo/src headers on every check run. Do not edit. -/",
             "namespace ArgoVerif.Gen.Consts", ""]
    n = 0
    for l in out.strip().split("\n"):
        k, v = l.split()
        lines.append("def %s : Int := %s" % (k, v if not v.startswith("-") else "(%s)" % v))
        n += 1
    lines += ["", "end ArgoVerif.Gen.Consts", ""]
    changed = C.write_if_changed(os.path.join(C.LEAN, "ArgoVerif", "Gen", "Consts.lean"), "\n".join(lines))
    return {"n": n, "changed": changed}


if __name__ == "__main__":
    print(generate())
