#!/usr/bin/env python3
"""Regenerate the table of DESIGN.md §0.5 (which check catches which seeded change) from seeded/*/meta.json.
usage: seedtable.py            prints the markdown table
       seedtable.py --write    replaces the block between the SEEDTABLE markers in DESIGN.md"""
import glob, json, os, re, sys

V = os.path.dirname(os.path.dirname(os.path.abspath(__file__)))


def short(s, n):
    s = " ".join(str(s).split())
    return s if len(s) <= n else s[:n - 1] + "…"


def rows():
    out = []
    for d in sorted(glob.glob(os.path.join(V, "seeded", "C*-*"))):
        try:
            m = json.load(open(os.path.join(d, "meta.json")))
        except Exception:
            continue
        name = os.path.basename(d)
        cr = m.get("check_result", {})
        conf = m.get("confirmed_by_lead", {})
        site = ""
        try:
            t = open(os.path.join(d, "patch.diff")).read()
            files = re.findall(r"^\+\+\+ b/(\S+)", t, re.M)
            fns = re.findall(r"^@@.*@@ .*?([A-Za-z_][A-Za-z0-9_]*)\s*\(", t, re.M)
            site = ", ".join(sorted(set(os.path.basename(f) for f in files)))
            if fns:
                site += " `" + fns[0] + "`"
        except Exception:
            pass
        what = cr.get("check_what") or []
        ties = []
        w0 = ""
        for w in what:
            if w.startswith("broken:"):
                ties.append(w.split(":", 1)[1].strip())
            elif not w.startswith("proof obligation"):
                w0 = w0 or w
        if cr.get("detected"):
            verdict = "caught, failing input" if cr.get("concrete_input") else "caught, no-failing-input-found"
        else:
            verdict = "**missed**"
        valid = "yes" if conf.get("tests_pass") and conf.get("demo_ok") else ("suite fails with it" if not conf.get("tests_pass") else "demo unsound")
        out.append("| %s | %s | %s | %s | %s | %s |" % (name, site, short(m.get("needs_to_manifest", ""), 110), valid, verdict,
                                                        short((", ".join(ties) + " " if ties else "") + w0, 150)))
    return out


def table():
    head = ["| change | site | needs | valid (suite passes, demo fails) | `check.py` verdict | by what |", "|---|---|---|---|---|---|"]
    return "\n".join(head + rows())


if __name__ == "__main__":
    t = table()
    if "--write" in sys.argv:
        p = os.path.join(V, "DESIGN.md")
        s = open(p).read()
        a, b = "<!-- SEEDTABLE BEGIN -->", "<!-- SEEDTABLE END -->"
        i, j = s.index(a), s.index(b)
        s = s[:i + len(a)] + "\n" + t + "\n" + s[j:]
        open(p, "w").write(s)
    else:
        print(t)
